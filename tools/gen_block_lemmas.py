#!/usr/bin/env python3
"""(development) tools/gen_block_lemmas.py <helper-name> <prefix> <Module>: writes lean/HbsModel/Lemmas/<Module>.lean – the
compile2 development for  L ++ {{#name v}}A{{/name}} ++ R  – by substituting the tag's text and offsets in
Lemmas/IfBlock.lean (the development for `if`).  The output is an ordinary Lean file, checked by the kernel like any other;
EachBlock.lean, UnlessBlock.lean and WithBlock.lean were produced this way and are committed."""
import re, sys, os
HERE = os.path.dirname(os.path.dirname(os.path.abspath(__file__)))
def gen(name, pre, modname, base=os.path.join(HERE, "lean", "HbsModel", "Lemmas")):
    n = len(name)
    s = open(os.path.join(base, "IfBlock.lean")).read()
    def cut(s, a, b):
        i = s.index(a); j = s.index(b, i); return s[:i] + s[j:]
    s = cut(s, "theorem step_inner_template", "/-- the finished block -/")
    i = s.index("/-! ### the standalone-line rule next to text -/"); j = s.index("/-- the body of the block as compile2 stores it")
    s = s[:i] + s[j:]
    s = s.replace("import HbsModel.Lemmas.CompileValue", "import HbsModel.Lemmas.IfBlock")
    offs = {3: 3, 5: 3 + n, 6: 4 + n, 7: 5 + n, 9: 7 + n, 10: 8 + n, 13: 11 + n, 15: 11 + 2 * n, 17: 13 + 2 * n}
    s = re.sub(r"\b(a|L\.length) \+ (\d+)\b", lambda m: "%s + %d" % (m.group(1), offs[int(m.group(2))]) if int(m.group(2)) in offs else m.group(0), s)
    for a, b in [("ifSrc_eq", pre + "Src_eq"), ("ifSrc", pre + "Src"), ("ifToks", pre + "Toks"), ("if_decided", pre + "_decided"), ("if_tagAt", pre + "_tagAt"),
                 ("parse_text_if_text", "parse_text_%s_text" % pre), ("ifOpen", pre + "Open"), ("step_if_start", "step_%s_start" % pre), ("ifHT", pre + "HT"),
                 ("step_if_end", "step_%s_end" % pre), ("ifBody", pre + "Body"), ("compile_text_if_text", "compile_text_%s_text" % pre)]:
        s = s.replace(a, b)
    s = s.replace('"{{#if v}}A{{/if}}".toList', '"{{#%s v}}A{{/%s}}".toList' % (name, name))
    s = s.replace("'i', 'f'", ", ".join("'%s'" % c for c in name))
    T = 13 + 2 * n
    old = """  [⟨some .r_helper_block_start, 0, 9⟩, ⟨some .r_identifier, 3, 5⟩, ⟨some .r_helper_parameter, 6, 7⟩, ⟨some .r_reference, 6, 7⟩,
   ⟨some .r_path_inline, 6, 7⟩, ⟨some .r_path_id, 6, 7⟩, ⟨some .r_template, 9, 10⟩, ⟨some .r_raw_text, 9, 10⟩,
   ⟨some .r_helper_block_end, 10, 17⟩, ⟨some .r_identifier, 13, 15⟩]"""
    new = f"""  [⟨some .r_helper_block_start, 0, {7+n}⟩, ⟨some .r_identifier, 3, {3+n}⟩, ⟨some .r_helper_parameter, {4+n}, {5+n}⟩, ⟨some .r_reference, {4+n}, {5+n}⟩,
   ⟨some .r_path_inline, {4+n}, {5+n}⟩, ⟨some .r_path_id, {4+n}, {5+n}⟩, ⟨some .r_template, {7+n}, {8+n}⟩, ⟨some .r_raw_text, {7+n}, {8+n}⟩,
   ⟨some .r_helper_block_end, {8+n}, {T}⟩, ⟨some .r_identifier, {11+n}, {11+2*n}⟩]"""
    assert old in s
    s = s.replace(old, new)
    s = s.replace("some (.ok 17 [] %sToks)" % pre, "some (.ok %d [] %sToks)" % (T, pre)).replace("17 ≤ n", "%d ≤ n" % T)
    s = s.replace("{{#if v}}A{{/if}}", "{{#%s v}}A{{/%s}}" % (name, name)).replace("helper `if`", "helper `%s`" % name)
    open(os.path.join(base, modname + ".lean"), "w").write(s)
if __name__ == "__main__":
    gen(sys.argv[1], sys.argv[2], sys.argv[3])
