#!/usr/bin/env python3
"""(development) writes /verif/MANIFEST.json"""
import json, os
HERE = os.path.dirname(os.path.dirname(os.path.abspath(__file__)))
TB = ("Trusted: Lean 4.33.0 kernel (axioms ⊆ {propext, Classical.choice, Quot.sound}, audited by #print axioms on every run); the "
      "statements in lean/HbsModel/Props and Spec; the translators (harness/src/bin/regen.rs via pest_meta, vlib/extract.py) and the "
      "correspondence harness; pest, serde_json, zmij, num-order, std are modelled (generic PEG interpreter, JSON/number models) and "
      "validated by the correspondence runs, not verified.")
T = {
 "C01": ("Theorems over the executable Lean model: the JSON walk of navigate refines the reference descent (Spec.descend) on the index-safe domain and errs exactly off it; navigate in a path-held and in a value-held scope, @root and @-variables yield what the scope's value designates; the six textual forms; separators and this/./ prefixes are silent grammar rules (regenerated grammar). The model is tied to the code by a 3-way run: real crate vs model vs an independent reference renderer over generated scope stacks and paths.", "refinement proof in Lean + differential correspondence"),
 "C02": ("For EVERY string, proved over the escape table regenerated from support.rs: no forbidden character in the image, '&' only as the head of one of seven entities, an explicit inverse (injectivity). For an ARBITRARY escape function: {{x}} hands escape(text) – applied once – to the writer, {{{x}}}/{{&x}} hand the text itself and re-enable escaping, value helpers escape once, subexpression results are never escaped. Correspondence: all 1 112 064 scalar values every run and marking-escape templates.", "induction over the regenerated table; one-step theorems for an arbitrary escape fn"),
 "C03": ("Theorems: a RawString element writes its text as one call; comments write nothing; the raw helper is its body; raw_string removes exactly the escape backslashes (position lemma); text rules are compound-atomic in the regenerated grammar. Direct oracle on the real crate: render(quote s) = s over generated strings, between tags and as raw-block bodies.", "Lean theorems on the model + round-trip oracle"),
 "C04": ("The Rust panic sites of compile2 are explicit outcomes of the model, so impl/model agreement on ok | error(variant,line,col) | panic over token soups, grammar-directed templates and single-edit mutants decides 'never panics' case by case; theorems: positions lie inside the source (lineCol bounds, all inputs), grammar errors carry the template name, a failed registration returns no new registry.", "Lean theorems + differential compile (AST and error) correspondence"),
 "C05": ("Theorems: parse_json_visitor never takes the slice out of range and never yields the RelativePath variant (so navigate never panics, all inputs); the len-1 tests are underflow-free; fuel exhaustion is a distinct outcome. Process-level: every generated render runs in a child process under catch_unwind, and a second render must succeed.", "Lean panic-freedom lemmas + crash-isolated correspondence"),
 "C06": ("Truthiness by cases for all values (floats: everything but ±0.0, after the repair); if/unless render exactly the selected template in the same context; unless = if with branches swapped; the else-chain reversal step lemmas. Exhaustive grid of chains ≤ 3 (thorough ≤ 4) x truthiness classes against the reference renderer.", "Lean case analysis + exhaustive grid vs reference"),
 "C07": ("Theorems: @first/@last/@index/@key of iteration i of n, context = element in both scope representations (push then overwrite for paths), block parameters in written order, the loop is the sequential composition in list order, empty/non-iterable → else body. Reference renderer over every provenance of the collection.", "Lean theorems on the iteration step + differential correspondence"),
 "C08": ("Theorems: rendering A++B is A then B from A's final state (render_append, induction over the element list), failures propagate, frame lemmas for text/comment/triple-brace, the partial's restoration of blocks/name/indent/@partial-block binding (C09). Relation checked on the real crate: render(A|B) vs render(A|),render(|B); N copies; state probe before/after.", "Lean induction over the element loop + metamorphic relation on the implementation"),
 "C09": ("Theorems: merge_json laws (empty hash = base; k=v overrides exactly k), lookup order errors (CannotIncludeSelf, PartialNotFound), inside a partial the scope stack is one fresh block and everything is restored afterwards, including the @partial-block binding. Reference renderer with lexical @partial-block over acyclic template sets.", "Lean theorems + reference renderer correspondence"),
 "C10": ("Theorems: strict+missing ⇒ MissingVariable(raw path) for expressions, each/with without else, lookup, default call; a present value renders identically under both settings. Relation on the real crate: strict success ⇒ same output as non-strict; reference renderer in strict mode.", "Lean theorems + two-run relation"),
 "C11": ("Theorems: every trimming operation of compile2 deletes only whitespace at the stated end (trim lemmas, all strings), the standalone test as a predicate on the source as written. EXHAUSTIVE grid 17 tag kinds x 4 tilde settings x 11 x 11 contexts against the source-level whitespace rules, every run.", "Lean lemmas on the trimming functions + exhaustive grid"),
 "C12": ("Theorems: write_indented emits exactly with_indent(s, W) for every s (induction with fuel), indentation preserves line count and non-blank content, nested indents concatenate, first-line rule. Oracle on the real crate: indent_lines(render p alone, W) modulo blank-line whitespace.", "Lean induction over the chunk writer + relational oracle"),
 "C13": ("Theorems: literal/path/subexpression delivery, left-to-right order, hash under keys with last duplicate winning, block-param order; kernel-evaluated literal instances. A recording probe helper in the harness (mirrored in the model) dumps what it received; oracle = the denoted values.", "Lean theorems + recording-probe correspondence"),
 "C14": ("Theorems: helper before field, local before registry, hook last, HelperNotFound / DecoratorNotFound, explicit spellings read data, decorator effects are sequential. EXHAUSTIVE decision table (1 120 cells incl. nesting positions) against the table stated by the property.", "Lean decision-logic theorems + exhaustive table"),
 "C15": ("Theorems for all values: the comparison is antisymmetric under swapping (hence lt a b = gt b a, gte a b = lte b a), gt ⇒ gte ∧ ¬lt, cmp_nums never fails on well-formed numbers and is the exact order of the dyadic values, compare_json by cases, and/or/not/len. EXHAUSTIVE 66x66 boundary grid x 6 operators vs exact rational arithmetic.", "Lean order-law proofs + exhaustive boundary grid"),
 "C16": ("Theorems: the eight entry points (written separately in the model) reduce to one function; determinism is the model's purity. Every entry point, permuted orders, a clone and 2..16 threads on the real crate. Thread schedules are outside a pure model (stated).", "Lean equalities between entry points + agreement runs"),
 "C17": ("Theorems per operation over the registry state machine: successful registration sets exactly that name (and stops tracking it), failures change nothing, unregister/clear/dev-off, dev-mode loads the file's content at render time. Histories exhaustive to length 3 (thorough 4) + random, observed after every step, against a map model.", "Lean state-machine theorems + exhaustive short histories"),
 "C18": ("Theorems: Template::render decorates an undecorated error of element i with mapping[i] and the template name and passes decorated errors unchanged; lineCol bounds. Oracle: the generator plants exactly one failing tag and records its name/line/column.", "Lean theorems on error decoration + planted-failure oracle"),
 "C19": ("Theorems: every write site in src/ propagates its Result (regenerated list, decide); a write call fails exactly at the fault index; append-only is preserved by sequencing (so the bytes handed over are a prefix), subexpression output is private. EVERY fault index k of every generated case on the real crate.", "Lean compositional append-only proof + exhaustive fault enumeration"),
 "C20": ("Theorems over the regenerated accessor table: each token's conversion, missing ⇒ ParamNotFoundForName, wrong type ⇒ Param/HashTypeMismatchForName, absent option ⇒ default, i-th parameter from i-th argument. EXHAUSTIVE combinations over a helper family expanded in the harness from the current macro.", "Lean decision-logic theorems + exhaustive signature grid"),
}
checks = []
for i in range(1, 21):
    pid = "C%02d" % i
    text, tech = T[pid]
    checks.append({
        "property_id": pid,
        "quick_cmd": "./check %s quick" % pid,
        "thorough_cmd": "./check %s thorough" % pid,
        "evidence_file": "/verif/evidence/%s.json" % pid,
        "replay_cmd_template": "./check %s --replay {path}" % pid,
        "engine": "lean-model+correspondence",
        "level_claimed": {"category": "proof", "text": text, "design_ref": "DESIGN.md §5 %s" % pid},
        "level_note": TB,
        "technique": tech,
    })
m = {
    "version": 1,
    "setup_cmd": "./setup.sh",
    "hooks": {"guard": "hbs_verif (unused: no hook was needed)", "enable": "none – the harness uses the crate's public API through a path dependency on /repo",
              "baseline_off_cmd": "cd /repo && cargo test --workspace --no-fail-fast --offline", "source_commits": [], "add_only": True},
    "engines": [{"name": "lean-model+correspondence", "path": "/verif/check",
                 "serves_properties": ["C%02d" % i for i in range(1, 21)],
                 "kind_free_text": "Lean 4 executable model of the pipeline with property theorems (lean/), regenerated tables, Rust case runner (harness/), Python generators and oracles (vlib/)"}],
    "checks": checks,
    "notes": "Genuine defects found are repaired by separate 'fix:' commits in /repo or listed in known_findings.json (see DESIGN.md §6).",
    "not_applicable": [],
}
json.dump(m, open(os.path.join(HERE, "MANIFEST.json"), "w"), indent=1, ensure_ascii=False)
print("ok")
