#!/bin/sh
# (development) every kept behaviour-preserving change must pass all twenty quick checks without an alarm
cd /verif
for d in benign/*/; do
  id=$(basename $d)
  echo "##### $id"
  python3 tools/run_benign.py $d/patch.diff 2>&1 | grep -v "exit=0" | tail -5
done
