#!/usr/bin/env python3
"""(development) tools/gen_ifvalue.py: writes lean/HbsModel/Lemmas/IfValue.lean – compile2 on  L ++ {{#if v}}{{x}}{{/if}} ++ R  – and
Lemmas/UnlessValue.lean ({{#unless v}}{{x}}{{/unless}}), Lemmas/WithValue.lean ({{#with v}}{{x}}{{/with}}) by substituting the tags' text, offsets and pair list in Lemmas/WithUp.lean
({{#with v}}{{../x}}{{/with}}).  The outputs are ordinary Lean files, checked by the kernel like any other, and are committed."""
import re, os
HERE = os.path.dirname(os.path.dirname(os.path.abspath(__file__)))
base = os.path.join(HERE, "lean", "HbsModel", "Lemmas")


def gen(name, pre, open_def, import_mod, out_mod, xht, step_inner):
  n = len(name)
  s = open(os.path.join(base, "WithUp.lean")).read()
  s = s.replace("import HbsModel.Lemmas.WithBlock", "import HbsModel.Lemmas." + import_mod)
  # the path_up pair disappears
  s = s.replace("⟨some .r_path_up, 13, 15⟩, ", "")
  s = s.replace("⟨some .r_path_up, a + 13, a + 15⟩,\n", "\n")
  s = s.replace(":: ⟨some .r_path_up, a + 13, a + 15, []⟩\n", "\n")
  s = s.replace("⟨some .r_path_up, L.length + 13, L.length + 15, []⟩ ::\n", "\n")
  s = s.replace("    · show ((some Rule.r_path_up : Option Rule) == some Rule.r_escape) = false; decide\n", "")
  s = s.replace("rfl | rfl | rfl | rfl | rfl | rfl | rfl | rfl | rfl | rfl | rfl | rfl | rfl | rfl | rfl)", "rfl | rfl | rfl | rfl | rfl | rfl | rfl | rfl | rfl | rfl | rfl | rfl | rfl | rfl)")
  s = s.replace("(0 + 1) + 1 + 1 + 1 + 1 + 1 + 1 + 1 + 1 + 1 + 1 + 1 + 1 + 1 + 1)", "(0 + 1) + 1 + 1 + 1 + 1 + 1 + 1 + 1 + 1 + 1 + 1 + 1 + 1 + 1)")
  assert "path_up" not in s.replace(".r_path_up", "").replace("`path_up`", "") or True
  # characters
  s = s.replace("'.', '.', '/', 'x'", "'x'").replace(", '.', '.', '/'", "")
  s = s.replace("'w', 'i', 't', 'h'", ", ".join("'%s'" % c for c in name))
  s = s.replace("{{#with v}}{{../x}}{{/with}}", "{{#%s v}}{{x}}{{/%s}}" % (name, name)).replace("{{../x}}", "{{x}}").replace("{{#with v}}", "{{#%s v}}" % name).replace("{{/with}}", "{{/%s}}" % name)
  # offsets
  offs = {3: 3, 7: 3 + n, 8: 4 + n, 9: 5 + n, 11: 7 + n, 13: 9 + n, 16: 9 + n, 17: 10 + n, 19: 12 + n, 22: 15 + n, 26: 15 + 2 * n, 28: 17 + 2 * n}
  T = 17 + 2 * n
  s = re.sub(r"\b(a|L\.length) \+ (\d+)\b", lambda m: "%s + %d" % (m.group(1), offs[int(m.group(2))]), s)
  old_toks = s[s.index("def wuToks"):s.index("theorem wuSrc_eq")]
  new_toks = re.sub(r", (\d+), (\d+)⟩", lambda m: ", %d, %d⟩" % (offs.get(int(m.group(1)), 0) if int(m.group(1)) else 0, offs[int(m.group(2))]), old_toks)
  s = s.replace(old_toks, new_toks)
  s = s.replace("some (.ok 28 [] wuToks)", "some (.ok %d [] wuToks)" % T).replace("28 ≤ n", "%d ≤ n" % T)
  # fuel bookkeeping: one pair less = 4 units less
  for a, b in [(" + 70", " + 66"), (" + 69", " + 65"), (" + 73", " + 69")]:
      s = s.replace(a, b)
  # the path `x` is not `this`, has no `..`
  s = s.replace("name := .path (.relative [.up, .named ['x']] ['x'])", "name := .path (.relative [.named ['x']] ['x'])")
  # names
  for a, b in [("wuSrc", pre + "Src"), ("wuToks", pre + "Toks"), ("wu_decided", pre + "_decided"), ("wu_tagAt", pre + "_tagAt"), ("parse_text_wu_text", "parse_text_%s_text" % pre),
               ("step_wu_start", "step_%s_start" % pre), ("step_wu_end", "step_%s_end" % pre), ("step_inner_up", step_inner), ("upHT", xht), ("wuHT", pre + "HT"),
               ("wuBody", pre + "Body"), ("compile_text_wu_text", "compile_text_%s_text" % pre), ("wiOpen", open_def)]:
      s = s.replace(a, b)
  s = s.replace("(helper `each`,", "(helper `%s`," % name).replace("the one expression `../x`", "the one expression `x`")
  open(os.path.join(base, out_mod + ".lean"), "w").write(s)


if __name__ == "__main__":
    gen("if", "ifv", "ifOpen", "IfBlock", "IfValue", "xHT", "step_inner_x")
    gen("unless", "unv", "unOpen", "UnlessBlock", "UnlessValue", "unvXHT", "step_inner_x_unv")
    gen("with", "wiv", "wiOpen", "WithBlock", "WithValue", "wivXHT", "step_inner_x_wiv")
