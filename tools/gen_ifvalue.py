#!/usr/bin/env python3
"""(development) tools/gen_ifvalue.py: writes lean/HbsModel/Lemmas/IfValue.lean – compile2 on  L ++ {{#if v}}{{x}}{{/if}} ++ R  –
by substituting the tags' text, offsets and pair list in Lemmas/WithUp.lean ({{#with v}}{{../x}}{{/with}}).  The output is an
ordinary Lean file, checked by the kernel like any other, and is committed."""
import re, os
HERE = os.path.dirname(os.path.dirname(os.path.abspath(__file__)))
base = os.path.join(HERE, "lean", "HbsModel", "Lemmas")
s = open(os.path.join(base, "WithUp.lean")).read()
s = s.replace("import HbsModel.Lemmas.WithBlock", "import HbsModel.Lemmas.IfBlock")
# the path_up pair disappears
s = s.replace("⟨some .r_path_up, 13, 15⟩, ", "")
s = s.replace("⟨some .r_path_up, a + 13, a + 15⟩,\n", "\n")
s = s.replace(":: ⟨some .r_path_up, a + 13, a + 15, []⟩\n", "\n")
s = s.replace("⟨some .r_path_up, L.length + 13, L.length + 15, []⟩ ::\n", "\n")
s = s.replace("    · show ((some Rule.r_path_up : Option Rule) == some Rule.r_escape) = false; decide\n", "")
s = s.replace("rfl | rfl | rfl | rfl | rfl | rfl | rfl | rfl | rfl | rfl | rfl | rfl | rfl | rfl | rfl)", "rfl | rfl | rfl | rfl | rfl | rfl | rfl | rfl | rfl | rfl | rfl | rfl | rfl | rfl)")
s = s.replace("(0 + 1) + 1 + 1 + 1 + 1 + 1 + 1 + 1 + 1 + 1 + 1 + 1 + 1 + 1 + 1)", "(0 + 1) + 1 + 1 + 1 + 1 + 1 + 1 + 1 + 1 + 1 + 1 + 1 + 1 + 1)")
assert "path_up" not in s.replace(".r_path_up", "").replace("`path_up`", "") or True
# characters
s = s.replace("'.', '.', '/', 'x'", "'x'").replace(", '.', '.', '/'", "")
s = s.replace("'w', 'i', 't', 'h'", "'i', 'f'")
s = s.replace("{{#with v}}{{../x}}{{/with}}", "{{#if v}}{{x}}{{/if}}").replace("{{../x}}", "{{x}}").replace("{{#with v}}", "{{#if v}}").replace("{{/with}}", "{{/if}}")
# offsets
offs = {3: 3, 7: 5, 8: 6, 9: 7, 11: 9, 13: 11, 16: 11, 17: 12, 19: 14, 22: 17, 26: 19, 28: 21}
s = re.sub(r"\b(a|L\.length) \+ (\d+)\b", lambda m: "%s + %d" % (m.group(1), offs[int(m.group(2))]), s)
old_toks = s[s.index("def wuToks"):s.index("theorem wuSrc_eq")]
new_toks = re.sub(r", (\d+), (\d+)⟩", lambda m: ", %d, %d⟩" % (offs.get(int(m.group(1)), 0) if int(m.group(1)) else 0, offs[int(m.group(2))]), old_toks)
s = s.replace(old_toks, new_toks)
s = s.replace("some (.ok 28 [] wuToks)", "some (.ok 21 [] wuToks)").replace("28 ≤ n", "21 ≤ n")
# fuel bookkeeping: one pair less = 4 units less
for a, b in [(" + 70", " + 66"), (" + 69", " + 65"), (" + 73", " + 69")]:
    s = s.replace(a, b)
# the path `x` is not `this`, has no `..`
s = s.replace("name := .path (.relative [.up, .named ['x']] ['x'])", "name := .path (.relative [.named ['x']] ['x'])")
# names
for a, b in [("wuSrc", "ifvSrc"), ("wuToks", "ifvToks"), ("wu_decided", "ifv_decided"), ("wu_tagAt", "ifv_tagAt"), ("parse_text_wu_text", "parse_text_ifv_text"),
             ("step_wu_start", "step_ifv_start"), ("step_wu_end", "step_ifv_end"), ("step_inner_up", "step_inner_x"), ("upHT", "xHT"), ("wuHT", "ifvHT"),
             ("wuBody", "ifvBody"), ("compile_text_wu_text", "compile_text_ifv_text"), ("wiOpen", "ifOpen")]:
    s = s.replace(a, b)
s = s.replace("(helper `each`,", "(helper `if`,").replace("the one expression `../x`", "the one expression `x`")
open(os.path.join(base, "IfValue.lean"), "w").write(s)
