#!/usr/bin/env python3
"""(development) tools/gen_body_lemmas.py <helper-name> <prefix> <Module-stem> [base]: writes Lemmas/<Stem>BodyTag.lean and
Lemmas/<Stem>BodyBlock.lean – the development for  L ++ {{#name v}} X {{/name}} ++ R  with EVERY body text X – by substituting the
tag's text and offsets in Lemmas/IfBodyTag.lean / IfBodyBlock.lean (the development for `if`).  The output is ordinary Lean,
checked by the kernel like any other file."""
import re, sys, os
HERE = os.path.dirname(os.path.dirname(os.path.abspath(__file__)))

def chars(s):
    return ", ".join("'%s'" % c for c in s)

def gen(name, pre, stem, blockmod, base):
    m = len(name)
    O, C = 7 + m, 5 + m           # lengths of the opening and closing tags
    T = O + C                     # both
    cons = " :: ".join("'%s'" % c for c in name)
    for fn, out in (("IfBodyTag.lean", stem + "BodyTag.lean"), ("IfBodyBlock.lean", stem + "BodyBlock.lean")):
        s = open(os.path.join(base, fn)).read()
        # offsets (order matters: longest patterns first)
        mx = {9: O, 12: O + 3, 14: O + 3 + m, 16: T}
        mt = {3: 3, 5: 3 + m, 7: C}
        def fx(mm):
            r = "+ %d + X.length" % mx[int(mm.group(1))]
            if mm.group(3):
                r += " + %d" % mt[int(mm.group(3))]
            return r
        s = re.sub(r"\+ (9|12|14|16) \+ X\.length( \+ (3|5|7)\b)?", fx, s)
        s = s.replace("X.length + 16", "X.length + %d" % T)
        s = s.replace("[⟨some .r_template, 9, 9 + n⟩, ⟨some .r_raw_text, 9, 9 + n⟩, ⟨some .r_helper_block_end, 9 + n, 16 + n⟩, ⟨some .r_identifier, 12 + n, 14 + n⟩]",
                      "[⟨some .r_template, %d, %d + n⟩, ⟨some .r_raw_text, %d, %d + n⟩, ⟨some .r_helper_block_end, %d + n, %d + n⟩, ⟨some .r_identifier, %d + n, %d + n⟩]" % (O, O, O, O, O, T, O + 3, O + 3 + m))
        s = re.sub(r"\b(a) \+ (9|16|12|14) \+ n\b", lambda mm: "a + %d + n" % {9: O, 16: T, 12: O + 3, 14: O + 3 + m}[int(mm.group(2))], s)
        mp = {5: 3 + m, 6: 4 + m, 7: 5 + m, 9: O}
        s = re.sub(r"\b(a|p|L\.length) \+ (5|6|7|9)\b(?! \+ X\.length \+)", lambda mm: "%s + %d" % (mm.group(1), mp[int(mm.group(2))]), s)
        # token literals
        s = s.replace("⟨some .r_helper_block_start, 0, 9⟩, ⟨some .r_identifier, 3, 5⟩, ⟨some .r_helper_parameter, 6, 7⟩, ⟨some .r_reference, 6, 7⟩,\n   ⟨some .r_path_inline, 6, 7⟩, ⟨some .r_path_id, 6, 7⟩]",
                      "⟨some .r_helper_block_start, 0, %d⟩, ⟨some .r_identifier, 3, %d⟩, ⟨some .r_helper_parameter, %d, %d⟩, ⟨some .r_reference, %d, %d⟩,\n   ⟨some .r_path_inline, %d, %d⟩, ⟨some .r_path_id, %d, %d⟩]" % (O, 3 + m, 4 + m, 5 + m, 4 + m, 5 + m, 4 + m, 5 + m, 4 + m, 5 + m))
        s = s.replace("some (.ok 9 [] ifOpenToks)", "some (.ok %d [] ifOpenToks)" % O)
        s = s.replace("= some (.ok 7 [] [⟨some .r_helper_block_end, 0, 7⟩, ⟨some .r_identifier, 3, 5⟩])", "= some (.ok %d [] [⟨some .r_helper_block_end, 0, %d⟩, ⟨some .r_identifier, 3, %d⟩])" % (C, C, 3 + m))
        # the tags' text
        s = s.replace("['{', '{', '#', 'i', 'f', ' ', 'v', '}', '}']", "['{', '{', '#', %s, ' ', 'v', '}', '}']" % chars(name))
        s = s.replace("['{', '{', '/', 'i', 'f', '}', '}']", "['{', '{', '/', %s, '}', '}']" % chars(name))
        s = s.replace("['#', 'i', 'f', ' ', 'v', '}', '}']", "['#', %s, ' ', 'v', '}', '}']" % chars(name))
        s = s.replace("['i', 'f', ' ', 'v', '}', '}']", "[%s, ' ', 'v', '}', '}']" % chars(name))
        s = s.replace("['{', '{', '#', 'i', 'f', ' ']", "['{', '{', '#', %s, ' ']" % chars(name))
        s = s.replace("'/' :: 'i' :: 'f' :: '}'", "'/' :: %s :: '}'" % cons)
        s = s.replace("['i', 'f']", "[%s]" % chars(name))
        # names
        s = s.replace("import HbsModel.Lemmas.IfBodyTag", "import HbsModel.Lemmas.%sBodyTag\nimport HbsModel.Lemmas.IfBodyBlock" % stem)
        s = s.replace("import HbsModel.Lemmas.IfBlock\n", "import HbsModel.Lemmas.IfBodyTag\nimport HbsModel.Lemmas.%s\n" % blockmod)
        for a, b in [("ifOpenSrc", pre + "OpenSrc"), ("ifCloseSrc", pre + "CloseSrc"), ("ifXSrc", pre + "XSrc"), ("ifOpenToks", pre + "OpenToks"), ("ifXToks", pre + "XToks"),
                     ("if_open_decided", pre + "_open_decided"), ("if_close_decided", pre + "_close_decided"), ("ifX_tagAt", pre + "X_tagAt"),
                     ("parse_text_ifX_text", "parse_text_%sX_text" % pre), ("step_if_startX", "step_%s_startX" % pre), ("step_if_endX", "step_%s_endX" % pre),
                     ("ifBodyX", pre + "BodyX"), ("compile_text_ifX_text", "compile_text_%sX_text" % pre), ("ifOpen", pre + "Open"), ("ifHT", pre + "HT")]:
            s = s.replace(a, b)
        s = s.replace("{{#if v}}", "{{#%s v}}" % name).replace("{{/if}}", "{{/%s}}" % name).replace("helper `if`", "helper `%s`" % name)
        if fn == "IfBodyTag.lean":
            # shared definitions stay in IfBodyTag
            for nm_, end_ in (("theorem before_block_decided", "theorem helper_block_nf"), ("theorem helper_block_nf", "/-- **the block is one element"),):
                pass
            i = s.index("/-- decided: on `{{#` text"); j = s.index("/-- **the block is one element of `template`**")
            s = s[:i] + s[j:]
        else:
            i = s.index("/-- the body text of the block theorems"); j = s.index("theorem %sXSrc_length" % pre)
            s = s[:i] + s[j:]
        open(os.path.join(base, out), "w").write(s)

if __name__ == "__main__":
    base = sys.argv[5] if len(sys.argv) > 5 else os.path.join(HERE, "lean", "HbsModel", "Lemmas")
    gen(sys.argv[1], sys.argv[2], sys.argv[3], sys.argv[4], base)
