#!/usr/bin/env python3
"""(development) confirm a sub-agent's seeded change in its scratch worktree and keep it under /verif/seeded/<id>/:
  tools/adopt_seeded.py <PROP> <id>
checks: the patch applies to a clean checkout of /repo's HEAD; the crate builds and the whole existing suite passes
with it; the demonstration fails with it and passes without it."""
import json, os, shutil, subprocess, sys
prop, sid = sys.argv[1], sys.argv[2]
wt = "/tmp/mut/%s" % (os.environ.get("WT") or prop)
outd = "/tmp/mut/out_%s" % (os.environ.get("WT") or prop)
dst = "/verif/seeded/%s" % sid
def sh(cmd, cwd=wt, timeout=1800):
    p = subprocess.run(cmd, shell=True, cwd=cwd, capture_output=True, text=True, timeout=timeout)
    return p.returncode, p.stdout + p.stderr
log = []
# normalise: patch from the agent's file (src only)
demo_src = os.path.join(wt, "tests/seeded_demo.rs")
if not os.path.exists(demo_src):
    shutil.copy(os.path.join(outd, "demo.rs"), demo_src)
demo = open(demo_src).read()
# (no `git stash`: the stash is shared between worktrees)
sh("git checkout -q -- . && git clean -fdq tests/")
rc, o = sh("git apply --check %s/patch.diff" % outd)
log.append(("apply --check", rc, o[-300:]))
if rc != 0:
    print("PATCH DOES NOT APPLY", o); sys.exit(1)
# without the change: demo passes
open(demo_src, "w").write(demo)
rc, o = sh("cargo test --offline --test seeded_demo 2>&1 | tail -15")
ok_without = "test result: ok" in o
log.append(("demo without change", rc, o[-600:]))
# with the change
sh("git apply %s/patch.diff" % outd)
rc, o = sh("cargo test --offline --test seeded_demo 2>&1 | tail -25")
fails_with = "FAILED" in o or "panicked" in o or "error" in o.lower() and "test result: ok" not in o
log.append(("demo with change", rc, o[-800:]))
os.remove(demo_src)
rc, o = sh("cargo test --workspace --no-fail-fast --offline 2>&1 | grep -E '^test result|FAILED|^error' ")
suite_ok = "FAILED" not in o and "error" not in o and " 0 failed" in o and all(" 0 failed" in l for l in o.split("\n") if l.startswith("test result"))
passed = sum(int(l.split()[3]) for l in o.split("\n") if l.startswith("test result"))
log.append(("suite with change", rc, "passed=%d %s" % (passed, "ok" if suite_ok else o[-500:])))
open(demo_src, "w").write(demo)
print("without-change demo passes:", ok_without, "| with-change demo fails:", fails_with, "| suite passes with change:", suite_ok, "(%d)" % passed)
if ok_without and fails_with and suite_ok:
    os.makedirs(dst, exist_ok=True)
    shutil.copy(os.path.join(outd, "patch.diff"), os.path.join(dst, "patch.diff"))
    shutil.copy(demo_src, os.path.join(dst, "demo.rs"))
    meta = {}
    try:
        meta = json.load(open(os.path.join(outd, "meta.json")))
    except Exception as e:
        meta = {"property": prop, "what": "(agent meta unreadable: %s)" % e}
    meta["property"] = prop
    meta["confirmed"] = {"patch_applies_to_head": True, "existing_suite_passes_with_change": passed, "demo_fails_with_change": True,
                         "demo_passes_without_change": True, "how": "tools/adopt_seeded.py in a scratch worktree of /repo HEAD"}
    json.dump(meta, open(os.path.join(dst, "meta.json"), "w"), indent=1)
    print("KEPT", dst)
else:
    for l in log:
        print(l)
    print("NOT KEPT")
