#!/usr/bin/env python3
"""(development) false-alarm test: apply a behaviour-preserving change to /repo, run all twenty quick checks,
report every check that does not exit 0, and ALWAYS restore /repo.
   tools/run_benign.py <patch.diff> [props...]"""
import os, shutil, subprocess, sys
HERE = os.path.dirname(os.path.dirname(os.path.abspath(__file__)))
patch = os.path.abspath(sys.argv[1])
props = sys.argv[2:] or ["C%02d" % i for i in range(1, 21)]
st = subprocess.run(["git", "-C", "/repo", "status", "--porcelain", "--untracked-files=no"], capture_output=True, text=True).stdout.strip()
if st:
    print("refusing: /repo has uncommitted changes:\n" + st); sys.exit(2)
r = subprocess.run(["git", "-C", "/repo", "apply", patch], capture_output=True, text=True)
if r.returncode != 0:
    print("patch does not apply:", r.stderr); sys.exit(2)
evd = os.path.join(HERE, "evidence")
keep = evd + ".keep"
shutil.copytree(evd, keep, dirs_exist_ok=True)
alarms = []
try:
    for p in props:
        pr = subprocess.run([os.path.join(HERE, "check"), p, "quick"], capture_output=True, text=True, cwd=HERE)
        lines = [l for l in pr.stdout.split("\n") if l.strip()]
        tail = [l for l in lines if l.startswith(("VIOLATION", p + " quick"))]
        print("== %s exit=%d  %s" % (p, pr.returncode, " | ".join(tail)[:400]))
        if pr.returncode != 0:
            alarms.append(p)
finally:
    subprocess.run(["git", "-C", "/repo", "checkout", "--", "."], check=True)
    subprocess.run(["git", "-C", "/repo", "clean", "-fdq", "src"], check=True)
    shutil.rmtree(evd); shutil.move(keep, evd)
    subprocess.run([sys.executable, "-c", "import sys; sys.path.insert(0, %r); from vlib import core; core.build_harness(); core.regen()" % HERE],
                   cwd=HERE, capture_output=True)
print("FALSE ALARMS: %s" % alarms if alarms else "NO ALARM")
