//! Case runner: reads one JSON case per line (file given as argv[1], or stdin), runs the real
//! handlebars crate in-process on it and prints one JSON result per line (same shapes as the Lean
//! model driver prints).  `--from N` skips the first N cases (used after a crash).
use handlebars::template::{
    BlockParam, DecoratorTemplate, HelperTemplate, Parameter, Template, TemplateElement,
};
use handlebars::{
    Context, Decorator, Handlebars, Helper, HelperDef, HelperResult, Output, Path, PathSeg,
    RenderContext, RenderError, RenderErrorReason, ScopedJson, TemplateError, TemplateErrorReason,
};
use serde_json::{json, Map, Value};
use std::io::{BufRead, Write};
use std::panic::{catch_unwind, AssertUnwindSafe};

mod macro_helpers;
mod pairs;

// ---------------------------------------------------------------- protocol data

fn decode_data(v: &Value) -> Value {
    match v {
        Value::Array(a) => Value::Array(a.iter().map(decode_data).collect()),
        Value::Object(o) => {
            if o.len() == 1 {
                let (k, val) = o.iter().next().unwrap();
                if let Value::String(s) = val {
                    match k.as_str() {
                        "#u" => return Value::Number(s.parse::<u64>().unwrap().into()),
                        "#i" => return Value::Number(s.parse::<i64>().unwrap().into()),
                        "#f" => {
                            let bits = u64::from_str_radix(s, 16).unwrap();
                            return Value::Number(
                                serde_json::Number::from_f64(f64::from_bits(bits)).unwrap(),
                            );
                        }
                        _ => {}
                    }
                }
            }
            Value::Object(o.iter().map(|(k, v)| (k.clone(), decode_data(v))).collect())
        }
        other => other.clone(),
    }
}

fn encode_data(v: &Value) -> Value {
    match v {
        Value::Number(n) => {
            if let Some(u) = n.as_u64() {
                json!({"#u": u.to_string()})
            } else if let Some(i) = n.as_i64() {
                json!({"#i": i.to_string()})
            } else {
                json!({"#f": format!("{:016x}", n.as_f64().unwrap().to_bits())})
            }
        }
        Value::Array(a) => Value::Array(a.iter().map(encode_data).collect()),
        Value::Object(o) => Value::Object(o.iter().map(|(k, v)| (k.clone(), encode_data(v))).collect()),
        other => other.clone(),
    }
}

// ---------------------------------------------------------------- AST dump

fn dump_path(p: &Path) -> Value {
    match p {
        Path::Relative((segs, raw)) => {
            let segs: Vec<Value> = segs
                .iter()
                .map(|s| match s {
                    PathSeg::Named(n) => json!({"n": n}),
                    other => {
                        let d = format!("{:?}", other);
                        match d.as_str() {
                            "Ruled(path_root)" => json!("root"),
                            "Ruled(path_local)" => json!("loc"),
                            "Ruled(path_up)" => json!("up"),
                            _ => json!(d),
                        }
                    }
                })
                .collect();
            json!({"k":"rel","segs":segs,"raw":raw})
        }
        Path::Local((level, name, raw)) => json!({"k":"local","level":level,"name":name,"raw":raw}),
    }
}

fn dump_param(p: &Parameter) -> Value {
    match p {
        Parameter::Name(s) => json!({"k":"name","s":s}),
        Parameter::Path(p) => json!({"k":"path","p":dump_path(p)}),
        Parameter::Literal(j) => json!({"k":"lit","j":encode_data(j)}),
        Parameter::Subexpression(s) => match s.as_element() {
            TemplateElement::Expression(h) => json!({"k":"sub","h":dump_helper(h)}),
            other => json!({"k":"sub-other","d":format!("{:?}", other)}),
        },
        other => json!({"k":"other","d":format!("{:?}", other)}),
    }
}

fn dump_hash(h: &std::collections::HashMap<String, Parameter>) -> Value {
    let mut keys: Vec<&String> = h.keys().collect();
    keys.sort();
    Value::Array(keys.into_iter().map(|k| json!([k, dump_param(&h[k])])).collect())
}

fn dump_bp(b: &Option<BlockParam>) -> Value {
    match b {
        None => Value::Null,
        Some(BlockParam::Single(Parameter::Name(a))) => json!([a]),
        Some(BlockParam::Pair((Parameter::Name(a), Parameter::Name(b)))) => json!([a, b]),
        Some(other) => json!(format!("{:?}", other)),
    }
}

fn dump_opt_t(t: &Option<Template>) -> Value {
    match t {
        Some(t) => dump_tmpl(t),
        None => Value::Null,
    }
}

fn dump_helper(h: &HelperTemplate) -> Value {
    let dbg = format!("{:?}", h);
    let ibw = dbg.ends_with("indent_before_write: true }");
    json!({"name":dump_param(&h.name),"params":h.params.iter().map(dump_param).collect::<Vec<_>>(),
           "hash":dump_hash(&h.hash),"bp":dump_bp(&h.block_param),"template":dump_opt_t(&h.template),
           "inverse":dump_opt_t(&h.inverse),"block":h.block,"chain":h.chain,"ibw":ibw})
}

fn dump_deco(d: &DecoratorTemplate) -> Value {
    let dbg = format!("{:?}", d);
    let ibw = dbg.ends_with("indent_before_write: true }");
    json!({"name":dump_param(&d.name),"params":d.params.iter().map(dump_param).collect::<Vec<_>>(),
           "hash":dump_hash(&d.hash),"template":dump_opt_t(&d.template),"indent":d.indent,"ibw":ibw})
}

fn dump_elem(e: &TemplateElement) -> Value {
    match e {
        TemplateElement::RawString(s) => json!({"k":"raw","s":s}),
        TemplateElement::HtmlExpression(h) => json!({"k":"html","h":dump_helper(h)}),
        TemplateElement::Expression(h) => json!({"k":"expr","h":dump_helper(h)}),
        TemplateElement::HelperBlock(h) => json!({"k":"block","h":dump_helper(h)}),
        TemplateElement::DecoratorExpression(d) => json!({"k":"decoExpr","d":dump_deco(d)}),
        TemplateElement::DecoratorBlock(d) => json!({"k":"decoBlock","d":dump_deco(d)}),
        TemplateElement::PartialExpression(d) => json!({"k":"partialExpr","d":dump_deco(d)}),
        TemplateElement::PartialBlock(d) => json!({"k":"partialBlock","d":dump_deco(d)}),
        TemplateElement::Comment(s) => json!({"k":"comment","s":s}),
        other => json!({"k":"other","d":format!("{:?}", other)}),
    }
}

fn dump_tmpl(t: &Template) -> Value {
    json!({"name":t.name,"elements":t.elements.iter().map(dump_elem).collect::<Vec<_>>(),
           "mapping":t.mapping.iter().map(|m| json!([m.0, m.1])).collect::<Vec<_>>()})
}

// ---------------------------------------------------------------- errors

fn terr_fields(e: &TemplateError) -> Map<String, Value> {
    let (rn, args): (&str, Vec<Value>) = match e.reason() {
        TemplateErrorReason::MismatchingClosedHelper(a, b) => ("MismatchingClosedHelper", vec![json!(a), json!(b)]),
        TemplateErrorReason::MismatchingClosedDecorator(a, b) => ("MismatchingClosedDecorator", vec![json!(a), json!(b)]),
        TemplateErrorReason::InvalidSyntax(_) => ("InvalidSyntax", vec![]),
        TemplateErrorReason::InvalidParam(s) => ("InvalidParam", vec![json!(s)]),
        TemplateErrorReason::NestedSubexpression => ("NestedSubexpression", vec![]),
        TemplateErrorReason::IoError(_, n) => ("IoError", vec![json!(n)]),
        _ => ("OtherTemplateError", vec![]),
    };
    let mut m = Map::new();
    m.insert("reason".into(), json!(rn));
    m.insert("args".into(), Value::Array(args));
    m.insert("name".into(), json!(e.name()));
    m.insert("line".into(), json!(e.pos().map(|p| p.0)));
    m.insert("col".into(), json!(e.pos().map(|p| p.1)));
    m
}

fn terr_json(e: &TemplateError) -> Value {
    let mut m = terr_fields(e);
    m.insert("r".into(), json!("terr"));
    Value::Object(m)
}

fn rerr_json(e: &RenderError, written: &str) -> Value {
    let (rn, args): (&str, Vec<Value>) = match e.reason() {
        RenderErrorReason::TemplateNotFound(n) => ("TemplateNotFound", vec![json!(n)]),
        RenderErrorReason::TemplateError(te) => ("TemplateError", vec![Value::Object(terr_fields(te))]),
        RenderErrorReason::MissingVariable(p) => ("MissingVariable", vec![json!(p)]),
        RenderErrorReason::PartialNotFound(n) => ("PartialNotFound", vec![json!(n)]),
        RenderErrorReason::HelperNotFound(n) => ("HelperNotFound", vec![json!(n)]),
        RenderErrorReason::ParamNotFoundForIndex(h, i) => ("ParamNotFoundForIndex", vec![json!(h), json!(i)]),
        RenderErrorReason::ParamNotFoundForName(h, n) => ("ParamNotFoundForName", vec![json!(h), json!(n)]),
        RenderErrorReason::ParamTypeMismatchForName(h, n, t) => ("ParamTypeMismatchForName", vec![json!(h), json!(n), json!(t)]),
        RenderErrorReason::HashTypeMismatchForName(h, n, t) => ("HashTypeMismatchForName", vec![json!(h), json!(n), json!(t)]),
        RenderErrorReason::DecoratorNotFound(n) => ("DecoratorNotFound", vec![json!(n)]),
        RenderErrorReason::CannotIncludeSelf => ("CannotIncludeSelf", vec![]),
        RenderErrorReason::InvalidLoggingLevel(l) => ("InvalidLoggingLevel", vec![json!(l)]),
        RenderErrorReason::InvalidParamType(t) => ("InvalidParamType", vec![json!(t)]),
        RenderErrorReason::BlockContentRequired => ("BlockContentRequired", vec![]),
        RenderErrorReason::InvalidJsonPath(p) => ("InvalidJsonPath", vec![json!(p)]),
        RenderErrorReason::InvalidJsonIndex(s) => ("InvalidJsonIndex", vec![json!(s)]),
        RenderErrorReason::SerdeError(_) => ("SerdeError", vec![]),
        RenderErrorReason::IOError(_) => ("IOError", vec![]),
        RenderErrorReason::Utf8Error(_) => ("Utf8Error", vec![]),
        RenderErrorReason::NestedError(_) => ("NestedError", vec![]),
        RenderErrorReason::Unimplemented => ("Unimplemented", vec![]),
        RenderErrorReason::Other(s) => ("Other", vec![json!(s)]),
        _ => ("OtherRenderError", vec![]),
    };
    json!({"r":"rerr","written":written,"reason":rn,"args":args,"name":e.template_name,
           "line":e.line_no,"col":e.column_no})
}

// ---------------------------------------------------------------- harness-defined helpers / decorators

struct Mark {
    tag: String,
}

impl HelperDef for Mark {
    fn call<'reg: 'rc, 'rc>(
        &self,
        h: &Helper<'rc>,
        r: &'reg Handlebars<'reg>,
        ctx: &'rc Context,
        rc: &mut RenderContext<'reg, 'rc>,
        out: &mut dyn Output,
    ) -> HelperResult {
        use handlebars::JsonRender;
        let ps: Vec<String> = h.params().iter().map(|p| p.value().render()).collect();
        let mut line = format!("[{}:{}:{}", self.tag, h.name(), ps.join(","));
        if !h.hash().is_empty() {
            let hs: Vec<String> = h.hash().iter().map(|(k, v)| format!("{}={}", k, v.value().render())).collect();
            line.push('|');
            line.push_str(&hs.join(","));
        }
        line.push(']');
        out.write(&line)?;
        if h.is_block() {
            use handlebars::Renderable;
            if let Some(t) = h.template() {
                t.render(r, ctx, rc, out)?;
            }
            if let Some(t) = h.inverse() {
                out.write(&format!("[^{}]", self.tag))?;
                t.render(r, ctx, rc, out)?;
            }
            out.write(&format!("[/{}]", self.tag))?;
        }
        Ok(())
    }
}

fn pj_dump(p: &handlebars::PathAndJson<'_>) -> Value {
    json!({"v": p.value(), "r": p.relative_path(), "m": p.is_value_missing(), "c": p.context_path()})
}

struct Probe;
impl HelperDef for Probe {
    fn call<'reg: 'rc, 'rc>(
        &self,
        h: &Helper<'rc>,
        _: &'reg Handlebars<'reg>,
        _: &'rc Context,
        _: &mut RenderContext<'reg, 'rc>,
        out: &mut dyn Output,
    ) -> HelperResult {
        let hash: Map<String, Value> = h.hash().iter().map(|(k, v)| (k.to_string(), pj_dump(v))).collect();
        let bp: Vec<&str> = if let Some(a) = h.block_param() {
            vec![a]
        } else if let Some((a, b)) = h.block_param_pair() {
            vec![a, b]
        } else {
            vec![]
        };
        let d = json!({"n": h.name(), "p": h.params().iter().map(pj_dump).collect::<Vec<_>>(), "h": hash,
                       "b": h.is_block(), "t": h.template().is_some(), "i": h.inverse().is_some(), "bp": bp});
        out.write(&serde_json::to_string(&d).unwrap())?;
        Ok(())
    }
}

struct EvalP;
impl HelperDef for EvalP {
    fn call<'reg: 'rc, 'rc>(
        &self,
        h: &Helper<'rc>,
        _: &'reg Handlebars<'reg>,
        ctx: &'rc Context,
        rc: &mut RenderContext<'reg, 'rc>,
        out: &mut dyn Output,
    ) -> HelperResult {
        let p = h.param(0).ok_or(RenderErrorReason::ParamNotFoundForIndex("evalp", 0))?;
        let raw = p.value().as_str().ok_or(RenderErrorReason::InvalidParamType("String"))?.to_owned();
        let r = rc.evaluate(ctx, &raw)?;
        if r.is_missing() {
            out.write("<missing>")?;
        } else {
            out.write(&format!("<{}>", r.render()))?;
        }
        Ok(())
    }
}

struct RcState;
impl HelperDef for RcState {
    fn call<'reg: 'rc, 'rc>(
        &self,
        _: &Helper<'rc>,
        _: &'reg Handlebars<'reg>,
        _: &'rc Context,
        rc: &mut RenderContext<'reg, 'rc>,
        out: &mut dyn Output,
    ) -> HelperResult {
        use handlebars::JsonRender;
        let opt = |o: Option<&String>| o.cloned().unwrap_or_else(|| "-".to_string());
        // number of blocks: Debug form of the context lists them; count via block() chain is not
        // public, so use the Debug output of `blocks`
        let dbg = format!("{:?}", rc);
        let n = dbg.matches("BlockContext {").count();
        let (bp, bv) = match rc.block() {
            Some(b) => (b.base_path().join("/"), b.base_value().map(|v| v.render()).unwrap_or_else(|| "-".into())),
            None => ("!".to_string(), "-".to_string()),
        };
        let s = format!(
            "{{de={},pb={},ct={},rt={},bp={},bv={},n={}}}",
            if rc.is_disable_escape() { 1 } else { 0 },
            if rc.get_partial("@partial-block").is_some() { 1 } else { 0 },
            opt(rc.get_current_template_name()),
            opt(rc.get_root_template_name()),
            bp,
            bv,
            n
        );
        out.write(&s)?;
        Ok(())
    }
}

static COUNTER: std::sync::atomic::AtomicUsize = std::sync::atomic::AtomicUsize::new(0);

/// writes the number of its earlier invocations in this render (reset before every render op)
struct Counter;
impl HelperDef for Counter {
    fn call<'reg: 'rc, 'rc>(
        &self,
        _: &Helper<'rc>,
        _: &'reg Handlebars<'reg>,
        _: &'rc Context,
        _: &mut RenderContext<'reg, 'rc>,
        out: &mut dyn Output,
    ) -> HelperResult {
        let n = COUNTER.fetch_add(1, std::sync::atomic::Ordering::SeqCst);
        out.write(&n.to_string())?;
        Ok(())
    }
}

/// a writing helper (implements only `call`): writes the text of its first parameter
struct Wr;
impl HelperDef for Wr {
    fn call<'reg: 'rc, 'rc>(
        &self,
        h: &Helper<'rc>,
        _: &'reg Handlebars<'reg>,
        _: &'rc Context,
        _: &mut RenderContext<'reg, 'rc>,
        out: &mut dyn Output,
    ) -> HelperResult {
        use handlebars::JsonRender;
        let s = h.param(0).map(|p| p.value().render()).unwrap_or_default();
        out.write(&s)?;
        Ok(())
    }
}

/// a user helper that renders a REGISTERED template through the same render context (what a layout / include helper does)
struct Incl;
impl HelperDef for Incl {
    fn call<'reg: 'rc, 'rc>(
        &self,
        h: &Helper<'rc>,
        r: &'reg Handlebars<'reg>,
        ctx: &'rc Context,
        rc: &mut RenderContext<'reg, 'rc>,
        out: &mut dyn Output,
    ) -> HelperResult {
        use handlebars::Renderable;
        if let Some(n) = h.param(0).and_then(|p| p.value().as_str()) {
            if let Some(t) = r.get_template(n) {
                t.render(r, ctx, rc, out)?;
            }
        }
        Ok(())
    }
}

/// like `Wr`, but through the `write!` macro with format arguments (`Output::write_fmt`): the text of the first parameter
struct WFmt;
impl HelperDef for WFmt {
    fn call<'reg: 'rc, 'rc>(
        &self,
        h: &Helper<'rc>,
        _: &'reg Handlebars<'reg>,
        _: &'rc Context,
        _: &mut RenderContext<'reg, 'rc>,
        out: &mut dyn Output,
    ) -> HelperResult {
        use handlebars::JsonRender;
        let s = h.param(0).map(|p| p.value().render()).unwrap_or_default();
        write!(out, "{}", s)?;
        Ok(())
    }
}

struct VRet;
impl HelperDef for VRet {
    fn call_inner<'reg: 'rc, 'rc>(
        &self,
        h: &Helper<'rc>,
        _: &'reg Handlebars<'reg>,
        _: &'rc Context,
        _: &mut RenderContext<'reg, 'rc>,
    ) -> Result<ScopedJson<'rc>, RenderError> {
        match h.param(0) {
            Some(p) if !p.is_value_missing() => Ok(ScopedJson::Derived(p.value().clone())),
            _ => Ok(ScopedJson::Missing),
        }
    }
}

struct SetCtx;
impl handlebars::DecoratorDef for SetCtx {
    fn call<'reg: 'rc, 'rc>(
        &'reg self,
        d: &Decorator<'rc>,
        _: &'reg Handlebars<'reg>,
        _: &'rc Context,
        rc: &mut RenderContext<'reg, 'rc>,
    ) -> Result<(), RenderError> {
        let p = d.param(0).ok_or(RenderErrorReason::ParamNotFoundForIndex("setctx", 0))?;
        rc.set_context(Context::wraps(p.value())?);
        Ok(())
    }
}

struct SetHelper;
impl handlebars::DecoratorDef for SetHelper {
    fn call<'reg: 'rc, 'rc>(
        &'reg self,
        d: &Decorator<'rc>,
        _: &'reg Handlebars<'reg>,
        _: &'rc Context,
        rc: &mut RenderContext<'reg, 'rc>,
    ) -> Result<(), RenderError> {
        let n = d.param(0).and_then(|p| p.value().as_str().map(|s| s.to_owned()));
        let t = d.param(1).and_then(|p| p.value().as_str().map(|s| s.to_owned()));
        match (n, t) {
            (Some(n), Some(tag)) => {
                rc.register_local_helper(&n, Box::new(Mark { tag }));
                Ok(())
            }
            _ => Err(RenderErrorReason::InvalidParamType("String").into()),
        }
    }
}

fn mk_registry(cfg: &Value) -> Handlebars<'static> {
    let mut r = Handlebars::new();
    match cfg.get("escape").and_then(|v| v.as_str()) {
        Some("none") => r.register_escape_fn(handlebars::no_escape),
        Some("mark") => r.register_escape_fn(|s: &str| format!("⟦{}⟧", s)),
        _ => {}
    }
    if let Some(hs) = cfg.get("helpers").and_then(|v| v.as_array()) {
        for h in hs {
            let name = h["name"].as_str().unwrap();
            match h["kind"].as_str().unwrap() {
                "mark" => r.register_helper(name, Box::new(Mark { tag: h["tag"].as_str().unwrap_or("").to_string() })),
                "probe" => r.register_helper(name, Box::new(Probe)),
                "evalp" => r.register_helper(name, Box::new(EvalP)),
                "rcstate" => r.register_helper(name, Box::new(RcState)),
                "vret" => r.register_helper(name, Box::new(VRet)),
                "wr" => r.register_helper(name, Box::new(Wr)),
                "wfmt" => r.register_helper(name, Box::new(WFmt)),
                "incl" => r.register_helper(name, Box::new(Incl)),
                "counter" => r.register_helper(name, Box::new(Counter)),
                "macro" => {
                    let sig_name = h["sig"]["name"].as_str().unwrap();
                    if !macro_helpers::register(&mut r, name, sig_name) {
                        panic!("unknown macro helper {}", sig_name);
                    }
                }
                other => panic!("unknown helper kind {}", other),
            }
        }
    }
    if let Some(ds) = cfg.get("decorators").and_then(|v| v.as_array()) {
        for d in ds {
            let name = d["name"].as_str().unwrap();
            match d["kind"].as_str().unwrap() {
                "setctx" => r.register_decorator(name, Box::new(SetCtx)),
                "sethelper" => r.register_decorator(name, Box::new(SetHelper)),
                other => panic!("unknown decorator kind {}", other),
            }
        }
    }
    r.set_strict_mode(cfg.get("strict").and_then(|v| v.as_bool()).unwrap_or(false));
    r.set_prevent_indent(cfg.get("prevent_indent").and_then(|v| v.as_bool()).unwrap_or(false));
    r.set_dev_mode(cfg.get("dev").and_then(|v| v.as_bool()).unwrap_or(false));
    r
}

// ---------------------------------------------------------------- writers

struct FaultWriter {
    calls: usize,
    fail_at: Option<usize>,
    /// a short-write writer: accepts at most this many bytes per call
    short: Option<usize>,
    /// what the planted io::Error is made of: "msg" (kind + message), "rerr" (a RenderError as its payload), "kind" (a bare
    /// ErrorKind), "os" (a raw OS error), "wrapped" (an io::Error as the payload of an io::Error)
    fault: String,
    buf: Vec<u8>,
}

impl Write for FaultWriter {
    fn write(&mut self, b: &[u8]) -> std::io::Result<usize> {
        if Some(self.calls) == self.fail_at {
            self.calls += 1;
            return Err(match self.fault.as_str() {
                "rerr" => std::io::Error::new(
                    std::io::ErrorKind::Other,
                    RenderError::from(RenderErrorReason::MissingVariable(Some("elsewhere.path".to_string()))),
                ),
                "kind" => std::io::ErrorKind::BrokenPipe.into(),
                "os" => std::io::Error::from_raw_os_error(28),
                "wrapped" => std::io::Error::new(
                    std::io::ErrorKind::InvalidData,
                    std::io::Error::new(std::io::ErrorKind::Other, "inner"),
                ),
                _ => std::io::Error::new(std::io::ErrorKind::Other, "planted fault"),
            });
        }
        self.calls += 1;
        let n = match self.short {
            Some(m) => b.len().min(m.max(1)),
            None => b.len(),
        };
        self.buf.extend_from_slice(&b[..n]);
        Ok(n)
    }
    fn flush(&mut self) -> std::io::Result<()> {
        Ok(())
    }
}

fn render_once(r: &Handlebars<'static>, op: &Value) -> Value {
    COUNTER.store(0, std::sync::atomic::Ordering::SeqCst);
    let api = op.get("api").and_then(|v| v.as_str()).unwrap_or("render");
    let data = decode_data(op.get("data").unwrap_or(&Value::Null));
    let name = op.get("name").and_then(|v| v.as_str()).unwrap_or("");
    let src = op.get("src").and_then(|v| v.as_str()).unwrap_or("");
    let fail_at = op.get("fail_at").and_then(|v| v.as_u64()).map(|k| k as usize);
    let fin = |res: Result<String, RenderError>| match res {
        Ok(s) => json!({"r":"ok","out":s}),
        Err(e) => rerr_json(&e, ""),
    };
    let short = op.get("short").and_then(|v| v.as_u64()).map(|k| k as usize);
    let fault = op.get("fault").and_then(|v| v.as_str()).unwrap_or("msg").to_string();
    let mut w = FaultWriter { calls: 0, fail_at, short, fault, buf: vec![] };
    let finw = |res: Result<(), RenderError>, w: &FaultWriter| {
        let written = String::from_utf8_lossy(&w.buf).to_string();
        match res {
            Ok(()) => json!({"r":"ok","out":written,"calls":w.calls}),
            Err(e) => rerr_json(&e, &written),
        }
    };
    if op.get("rust_data").and_then(|v| v.as_str()) == Some("u128max") {
        // a Rust value serde_json cannot represent: every entry point fails with the serialization error, whatever else is wrong
        let big = u128::MAX;
        return match api {
            "render" => fin(r.render(name, &big)),
            "render_with_context" => fin(Context::wraps(&big).and_then(|c| r.render_with_context(name, &c))),
            "render_to_write" => {
                let res = r.render_to_write(name, &big, &mut w);
                finw(res, &w)
            }
            "render_with_context_to_write" => {
                let res = Context::wraps(&big).and_then(|c| r.render_with_context_to_write(name, &c, &mut w));
                finw(res, &w)
            }
            "render_template" => fin(r.render_template(src, &big)),
            "render_template_with_context" => fin(Context::wraps(&big).and_then(|c| r.render_template_with_context(src, &c))),
            "render_template_to_write" => {
                let res = r.render_template_to_write(src, &big, &mut w);
                finw(res, &w)
            }
            "render_template_with_context_to_write" => {
                let res = Context::wraps(&big).and_then(|c| r.render_template_with_context_to_write(src, &c, &mut w));
                finw(res, &w)
            }
            other => json!({"r":"panic","site":format!("runner.unknown_api {}", other)}),
        };
    }
    match api {
        "render" => fin(r.render(name, &data)),
        "render_with_context" => fin(Context::wraps(&data).and_then(|c| r.render_with_context(name, &c))),
        "render_to_write" => {
            let res = r.render_to_write(name, &data, &mut w);
            finw(res, &w)
        }
        "render_with_context_to_write" => {
            let res = Context::wraps(&data).and_then(|c| r.render_with_context_to_write(name, &c, &mut w));
            finw(res, &w)
        }
        "render_template" => fin(r.render_template(src, &data)),
        "render_template_with_context" => fin(Context::wraps(&data).and_then(|c| r.render_template_with_context(src, &c))),
        "render_template_to_write" => {
            let res = r.render_template_to_write(src, &data, &mut w);
            finw(res, &w)
        }
        "render_template_with_context_to_write" => {
            let res = Context::wraps(&data).and_then(|c| r.render_template_with_context_to_write(src, &c, &mut w));
            finw(res, &w)
        }
        other => json!({"r":"panic","site":format!("runner.unknown_api {}", other)}),
    }
}

// ---------------------------------------------------------------- sessions

struct Session {
    regs: Vec<Handlebars<'static>>,
    dir: std::path::PathBuf,
}

fn reg_result(res: Result<(), TemplateError>) -> Value {
    match res {
        Ok(()) => json!({"r":"ok"}),
        Err(e) => terr_json(&e),
    }
}

fn step_op(s: &mut Session, op: &Value) -> Value {
    let kind = op["op"].as_str().unwrap_or("");
    let i = op.get("reg").and_then(|v| v.as_u64()).unwrap_or(0) as usize;
    let name = op.get("name").and_then(|v| v.as_str()).unwrap_or("");
    let file = |s: &Session, op: &Value| s.dir.join(op["file"].as_str().unwrap_or("f"));
    match kind {
        "reg_string" => reg_result(s.regs[i].register_template_string(name, op["src"].as_str().unwrap_or(""))),
        "reg_partial" => reg_result(s.regs[i].register_partial(name, op["src"].as_str().unwrap_or(""))),
        "reg_template" => {
            let src = op["src"].as_str().unwrap_or("");
            let t = match op.get("tname").and_then(|v| v.as_str()) {
                Some(n) => Template::compile_with_name(src, n.to_string()),
                None => Template::compile(src),
            };
            match t {
                Ok(t) => {
                    s.regs[i].register_template(name, t);
                    json!({"r":"ok"})
                }
                Err(e) => terr_json(&e),
            }
        }
        "reg_file" => {
            let p = file(s, op);
            reg_result(s.regs[i].register_template_file(name, p))
        }
        "unregister" => {
            s.regs[i].unregister_template(name);
            json!({"r":"ok"})
        }
        "clear" => {
            s.regs[i].clear_templates();
            json!({"r":"ok"})
        }
        "set_dev" => {
            s.regs[i].set_dev_mode(op["v"].as_bool().unwrap_or(false));
            json!({"r":"ok"})
        }
        "set_prevent_indent" => {
            s.regs[i].set_prevent_indent(op["v"].as_bool().unwrap_or(false));
            json!({"r":"ok"})
        }
        "set_strict" => {
            s.regs[i].set_strict_mode(op["v"].as_bool().unwrap_or(false));
            json!({"r":"ok"})
        }
        "write_file" => {
            std::fs::create_dir_all(&s.dir).unwrap();
            if let Some(hx) = op.get("bytes_hex").and_then(|v| v.as_str()) {
                // raw bytes (e.g. not valid UTF-8)
                let bytes: Vec<u8> = (0..hx.len() / 2).map(|k| u8::from_str_radix(&hx[2 * k..2 * k + 2], 16).unwrap()).collect();
                std::fs::write(file(s, op), bytes).unwrap();
            } else {
                std::fs::write(file(s, op), op["content"].as_str().unwrap_or("")).unwrap();
            }
            json!({"r":"ok"})
        }
        "delete_file" => {
            let _ = std::fs::remove_file(file(s, op));
            json!({"r":"ok"})
        }
        "clone" => {
            let c = s.regs[i].clone();
            s.regs.push(c);
            json!({"r":"ok"})
        }
        "has" => json!({"r":"bool","v":s.regs[i].has_template(name)}),
        "keys" => {
            let mut k: Vec<String> = s.regs[i].get_templates().keys().cloned().collect();
            k.sort();
            json!({"r":"keys","v":k})
        }
        "render" => render_once(&s.regs[i], op),
        "render_mt" => {
            let seq = render_once(&s.regs[i], op);
            let n = op.get("threads").and_then(|v| v.as_u64()).unwrap_or(4) as usize;
            let reg = &s.regs[i];
            let results: Vec<Value> = std::thread::scope(|sc| {
                let hs: Vec<_> = (0..n).map(|_| sc.spawn(|| render_once(reg, op))).collect();
                hs.into_iter().map(|h| h.join().unwrap_or(json!({"r":"thread-panic"}))).collect()
            });
            if results.iter().all(|x| *x == seq) {
                seq
            } else {
                json!({"r":"mt_disagree","seq":seq,"threads":results})
            }
        }
        other => json!({"r":"panic","site":format!("runner.unknown_op {}", other)}),
    }
}

fn run_session(c: &Value, scratch: &std::path::Path, idx: usize) -> Value {
    let regs: Vec<Handlebars<'static>> = c["regs"].as_array().map(|a| a.iter().map(mk_registry).collect()).unwrap_or_default();
    let dir = scratch.join(format!("c{}", idx));
    let mut s = Session { regs, dir: dir.clone() };
    let mut outs = vec![];
    if let Some(ops) = c["ops"].as_array() {
        for op in ops {
            let r = catch_unwind(AssertUnwindSafe(|| step_op(&mut s, op)));
            outs.push(match r {
                Ok(v) => v,
                Err(p) => json!({"r":"panic","site":panic_msg(&p)}),
            });
        }
    }
    let _ = std::fs::remove_dir_all(&dir);
    json!({"r":"session","results":outs})
}

fn panic_msg(p: &Box<dyn std::any::Any + Send>) -> String {
    if let Some(s) = p.downcast_ref::<&str>() {
        s.to_string()
    } else if let Some(s) = p.downcast_ref::<String>() {
        s.clone()
    } else {
        "panic".to_string()
    }
}

fn run_case(c: &Value, scratch: &std::path::Path, idx: usize) -> Value {
    match c["kind"].as_str().unwrap_or("") {
        "compile" => {
            let src = c["src"].as_str().unwrap_or("");
            let pi = c.get("prevent_indent").and_then(|v| v.as_bool()).unwrap_or(false);
            match c.get("name").and_then(|v| v.as_str()) {
                Some(n) => {
                    let mut r = Handlebars::new();
                    r.set_prevent_indent(pi);
                    match r.register_template_string(n, src) {
                        Ok(()) => json!({"r":"ok","ast":dump_tmpl(r.get_template(n).unwrap())}),
                        Err(e) => terr_json(&e),
                    }
                }
                None => match Template::compile(src) {
                    Ok(t) => json!({"r":"ok","ast":dump_tmpl(&t)}),
                    Err(e) => terr_json(&e),
                },
            }
        }
        "pairs" => pairs::run(c["src"].as_str().unwrap_or(""), c.get("rule").and_then(|v| v.as_str()).unwrap_or("handlebars")),
        "numfmt" => {
            use handlebars::JsonRender;
            let n = decode_data(&c["n"]);
            let txt = c["text"].as_str().unwrap_or("");
            let p = match serde_json::from_str::<Value>(txt) {
                Ok(v) => encode_data(&v),
                Err(_) => json!("ERR"),
            };
            json!({"r":"numfmt","s":n.render(),"p":p})
        }
        "session" => run_session(c, scratch, idx),
        "escape" => json!({"r":"esc","out":handlebars::html_escape(c["s"].as_str().unwrap_or(""))}),
        other => json!({"r":"panic","site":format!("runner.unknown_kind {}", other)}),
    }
}

fn main() {
    let args: Vec<String> = std::env::args().collect();
    let mut from = 0usize;
    let mut file: Option<String> = None;
    let mut i = 1;
    while i < args.len() {
        if args[i] == "--from" {
            from = args[i + 1].parse().unwrap();
            i += 2;
        } else {
            file = Some(args[i].clone());
            i += 1;
        }
    }
    // quiet panics: the message is reported in the result line
    std::panic::set_hook(Box::new(|_| {}));
    let scratch = std::env::temp_dir().join(format!("hbsverif-{}", std::process::id()));
    let reader: Box<dyn BufRead> = match file {
        Some(f) => Box::new(std::io::BufReader::new(std::fs::File::open(f).unwrap())),
        None => Box::new(std::io::BufReader::new(std::io::stdin())),
    };
    let stdout = std::io::stdout();
    let mut out = stdout.lock();
    for (idx, line) in reader.lines().enumerate() {
        let line = line.unwrap();
        if idx < from || line.trim().is_empty() {
            continue;
        }
        let c: Value = match serde_json::from_str(&line) {
            Ok(c) => c,
            Err(_) => {
                writeln!(out, "{{\"r\":\"badcase\"}}").unwrap();
                continue;
            }
        };
        let res = catch_unwind(AssertUnwindSafe(|| run_case(&c, &scratch, idx)));
        let mut v = match res {
            Ok(v) => v,
            Err(p) => json!({"r":"panic","site":panic_msg(&p)}),
        };
        if let (Some(o), Some(id)) = (v.as_object_mut(), c.get("id")) {
            o.insert("id".into(), id.clone());
        }
        writeln!(out, "{}", serde_json::to_string(&v).unwrap()).unwrap();
        out.flush().unwrap();
    }
    let _ = std::fs::remove_dir_all(&scratch);
}
