fn main(){}
