//! The flattened pair stream of the real pest parser, derived here from the very same grammar file
//! the crate uses (the crate's own `grammar` module is private).
use pest::Parser;
use serde_json::{json, Value};

#[derive(pest_derive::Parser)]
#[grammar = "../../../repo/src/grammar.pest"]
pub struct HbsParser;

pub fn run(src: &str, rule: &str) -> Value {
    let r = match rule {
        "handlebars" => Rule::handlebars,
        "path" => Rule::path,
        "parameter" => Rule::parameter,
        "template" => Rule::template,
        _ => return json!({"r":"panic","site":"runner.unknown_rule"}),
    };
    // byte offset -> char offset
    let mut map = vec![0usize; src.len() + 1];
    let mut ci = 0usize;
    for (bi, ch) in src.char_indices() {
        for k in 0..ch.len_utf8() {
            map[bi + k] = ci;
        }
        ci += 1;
    }
    map[src.len()] = ci;
    match HbsParser::parse(r, src) {
        Ok(pairs) => {
            let toks: Vec<Value> = pairs
                .flatten()
                .map(|p| {
                    let sp = p.as_span();
                    json!([format!("{:?}", p.as_rule()), map[sp.start()], map[sp.end()]])
                })
                .collect();
            json!({"r":"ok","toks":toks})
        }
        Err(e) => {
            let (l, c) = match e.line_col {
                pest::error::LineColLocation::Pos(p) => p,
                pest::error::LineColLocation::Span(p, _) => p,
            };
            json!({"r":"fail","line":l,"col":c})
        }
    }
}
