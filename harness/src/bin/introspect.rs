//! Facts about the crate obtained by RUNNING it (not by reading its source text): the escape table of
//! `html_escape` over every Unicode scalar value, which of the candidate names are registered as helpers /
//! decorators in a fresh registry, which of `if`/`unless` is the positive one, the default flags.
//! Input (stdin): {"helpers": [...], "decorators": [...]}   Output: one JSON object.
use handlebars::{Handlebars, RenderErrorReason};
use serde_json::{json, Value};
use std::io::Read;

fn main() {
    let mut inp = String::new();
    std::io::stdin().read_to_string(&mut inp).unwrap();
    let req: Value = serde_json::from_str(&inp).unwrap_or(json!({}));
    let h = Handlebars::new();

    // html_escape on every scalar value; `char_wise` = a sample of two-character strings is the concatenation
    let mut table = Vec::new();
    for cp in 0u32..=0x10FFFF {
        if let Some(c) = char::from_u32(cp) {
            let s = c.to_string();
            let o = handlebars::html_escape(&s);
            if o != s {
                table.push(json!([cp, o]));
            }
        }
    }
    let mut default_is_html = true;
    for cp in (0u32..=0x2FFF).chain([0x1F600u32, 0x10FFFF].into_iter()) {
        if let Some(c) = char::from_u32(cp) {
            let s = c.to_string();
            if (h.get_escape_fn())(&s) != handlebars::html_escape(&s) {
                default_is_html = false;
            }
        }
    }

    let names = |k: &str| -> Vec<String> {
        req.get(k)
            .and_then(|v| v.as_array())
            .map(|a| a.iter().filter_map(|x| x.as_str().map(|s| s.to_string())).collect())
            .unwrap_or_default()
    };
    let data = json!({"t": true, "o": {"k": 1}});
    let mut helpers = Vec::new();
    for n in names("helpers") {
        // an unknown helper called with an argument is HelperNotFound; anything else means the name is bound
        let r = std::panic::catch_unwind(|| Handlebars::new().render_template(&format!("{{{{{} 1}}}}", n), &data));
        let bound = match r {
            Ok(Ok(_)) => true,
            Ok(Err(e)) => !matches!(e.reason(), RenderErrorReason::HelperNotFound(_) | RenderErrorReason::TemplateError(_)),
            Err(_) => true,
        };
        if bound {
            helpers.push(n);
        }
    }
    let mut decorators = Vec::new();
    for n in names("decorators") {
        let r = std::panic::catch_unwind(|| Handlebars::new().render_template(&format!("{{{{*{} \"x\"}}}}", n), &data));
        let bound = match r {
            Ok(Ok(_)) => true,
            Ok(Err(e)) => !matches!(e.reason(), RenderErrorReason::DecoratorNotFound(_) | RenderErrorReason::TemplateError(_)),
            Err(_) => true,
        };
        if bound {
            decorators.push(n);
        }
    }
    let positive = |n: &str| -> Value {
        match Handlebars::new().render_template(&format!("{{{{#{} t}}}}T{{{{else}}}}F{{{{/{}}}}}", n, n), &data) {
            Ok(s) if s == "T" => json!(true),
            Ok(s) if s == "F" => json!(false),
            _ => Value::Null,
        }
    };
    let out = json!({
        "escape": table,
        "default_escape_is_html": default_is_html,
        "helpers": helpers,
        "decorators": decorators,
        "positive": {"if": positive("if"), "unless": positive("unless")},
        "strict_mode": h.strict_mode(),
        "dev_mode": h.dev_mode(),
        "prevent_indent": h.prevent_indent(),
    });
    println!("{}", out);
}
