use handlebars::Handlebars;
fn main() {
    let a: Vec<String> = std::env::args().collect();
    let tpl = &a[1];
    let data: serde_json::Value = serde_json::from_str(a.get(2).map(|s| s.as_str()).unwrap_or("{}")).unwrap();
    let mut h = Handlebars::new();
    if a.len() > 3 {
        for kv in a[3..].iter() {
            if kv == "--strict" { h.set_strict_mode(true); continue; }
            let (k, v) = kv.split_once('=').unwrap();
            println!("register {} -> {:?}", k, h.register_template_string(k, v).map_err(|e| format!("{:?} {:?}", e.reason(), e.pos())));
        }
    }
    match h.render_template(tpl, &data) {
        Ok(s) => println!("OK {:?}", s),
        Err(e) => println!("ERR {:?} name={:?} line={:?} col={:?}", e.reason(), e.template_name, e.line_no, e.column_no),
    }
}
