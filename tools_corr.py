#!/usr/bin/env python3
"""development tool: run a generator, compare impl vs model, print disagreements"""
import importlib, json, os, sys, time
sys.path.insert(0, os.path.dirname(os.path.abspath(__file__)))
from vlib import core
from vlib.rng import Rng

prop = sys.argv[1]
n = int(sys.argv[2]) if len(sys.argv) > 2 else 200
seed = int(sys.argv[3]) if len(sys.argv) > 3 else 1
mod = importlib.import_module("vlib.props." + prop)
cases = mod.generate(Rng(seed), n)
path = os.path.join(core.WORK, prop, "dev_cases.jsonl")
core.write_cases(path, [c for c, _ in cases])
t = time.time()
impl = core.run_impl(path, len(cases))
t1 = time.time()
model = core.run_model(path, len(cases))
t2 = time.time()
nd = 0
kinds = {}
for (c, m), a, b in zip(cases, impl, model):
    kinds[a.get("r")] = kinds.get(a.get("r"), 0) + 1
    d = core.diff_results(a, b)
    if d:
        nd += 1
        if nd <= int(os.environ.get("SHOW", "5")):
            print("=== DIFF", c["id"])
            print(json.dumps(c, ensure_ascii=False)[:1500])
            print(json.dumps(d, ensure_ascii=False)[:1500])
print("cases", len(cases), "diffs", nd, "impl %.1fs model %.1fs" % (t1 - t, t2 - t1), kinds)
